package manager

// Probe for defect D13 (C06): copy into internal/index/manager of a scratch worktree and run
//   go test -count=1 -vet=off -run TestProbeConverterOutputDropped ./internal/index/manager/
// A tag whose definition searches converter output (data.foo:…) is decided from the cached output. Detaching the
// converter from its last tag — or restarting it — deletes the cached output; before the repair the tag stayed
// decided with its old matches although evaluating its definition now selects nothing.

import (
	"testing"
	"time"
)

func TestProbeConverterOutputDropped(t *testing.T) {
	dirs := makeTempdirs(t)
	addConverter(dirs, "foo")
	mgr := makeManager(t, dirs)
	defer mgr.Close()
	importSomePackets(t, mgr, t1, "pcapProcessed")
	settle := func() {
		deadline := time.Now().Add(20 * time.Second)
		quiet := time.Time{}
		for time.Now().Before(deadline) {
			s := mgr.Status()
			busy := s.ConverterJobRunning || s.TaggingJobRunning || s.ImportJobCount != 0
			for _, ti := range mgr.ListTags() {
				if ti.UncertainCount != 0 {
					busy = true
				}
			}
			if busy {
				quiet = time.Time{}
			} else if quiet.IsZero() {
				quiet = time.Now()
			} else if time.Since(quiet) > 300*time.Millisecond {
				return
			}
			time.Sleep(20 * time.Millisecond)
		}
		t.Fatalf("not quiescent: %+v %+v", mgr.Status(), mgr.ListTags())
	}
	matching := func(name string) uint {
		for _, ti := range mgr.ListTags() {
			if ti.Name == name {
				return ti.MatchingCount
			}
		}
		t.Fatalf("tag %s missing", name)
		return 0
	}
	if err := mgr.AddTag("tag/all", "red", ""); err != nil {
		t.Fatal(err)
	}
	if err := mgr.UpdateTag("tag/all", UpdateTagOperationSetConverter([]string{"foo"})); err != nil {
		t.Fatal(err)
	}
	settle()
	if err := mgr.AddTag("tag/out", "blue", `data.foo:"StreamID"`); err != nil {
		t.Fatal(err)
	}
	settle()
	n := matching("tag/out")
	if n == 0 {
		t.Fatalf("setup: tag/out matches nothing although every stream has converter output")
	}
	// detach the converter from its only tag: the cached output is deleted
	if err := mgr.UpdateTag("tag/all", UpdateTagOperationSetConverter(nil)); err != nil {
		t.Fatal(err)
	}
	settle()
	if got := matching("tag/out"); got != 0 {
		t.Errorf("the converter output is gone, the definition of tag/out selects nothing, but the tag still reports %d decided matches", got)
	}
}
