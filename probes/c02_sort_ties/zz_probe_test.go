package index

// Probe for defect D17 (C02): copy into internal/index of a scratch worktree and run
//   go test -count=1 -vet=off -run TestProbeSortTies ./internal/index/
// Streams 0..3 where 1, 2 and 3 share one first-packet time; `sort:ftime,-id limit:2`: the page is the earliest stream and,
// of the three tied ones, the one with the LARGEST id. The sorted-section scan is ordered by the first key only and
// stopped at the first candidate that was not better than the page's last entry — before it had seen the tied stream
// that the second key puts first.

import (
	"context"
	"slices"
	"testing"
	"time"

	"github.com/spq/pkappa2/internal/query"
)

func TestProbeSortTies(t *testing.T) {
	converters := map[string]ConverterAccess{}
	streams := map[uint64]streamInfo{
		0: makeStream("192.168.0.100:123", "192.168.0.1:80", t1.Add(time.Hour), []string{"a"}),
		1: makeStream("192.168.0.100:124", "192.168.0.1:80", t1.Add(2*time.Hour), []string{"b"}),
		2: makeStream("192.168.0.100:125", "192.168.0.1:80", t1.Add(2*time.Hour), []string{"c"}),
		3: makeStream("192.168.0.100:126", "192.168.0.1:80", t1.Add(2*time.Hour), []string{"d"}),
	}
	r, err := makeIndex(t.TempDir(), streams, &converters)
	if err != nil {
		t.Fatal(err)
	}
	for q, want := range map[string][]uint64{
		"sort:ftime,-id limit:2":  {0, 3},
		"sort:ftime,id limit:2":   {0, 1},
		"sort:-ftime,id limit:2":  {1, 2},
		"sort:-ftime,-id limit:2": {3, 2},
	} {
		pq, err := query.Parse(q)
		if err != nil {
			t.Fatalf("parse %q: %v", q, err)
		}
		res, _, _, err := SearchStreams(context.Background(), []*Reader{r}, nil, pq.ReferenceTime, pq.Conditions, pq.Grouping, pq.Sorting, *pq.Limit, 0, nil, converters, false)
		if err != nil {
			t.Fatalf("search %q: %v", q, err)
		}
		got := []uint64{}
		for _, s := range res {
			got = append(got, s.StreamID)
		}
		if !slices.Equal(got, want) {
			t.Errorf("%q returned %v, want %v", q, got, want)
		}
	}
}
