package index

import (
	"context"
	"regexp"
	"slices"
	"testing"
	"time"

	"github.com/spq/pkappa2/internal/query"
)

// oracle: does the sequence (cdata:A then sdata:B) match the chunk list (alternating client/server starting with client)?
func seqMatches(chunks []string, a, b string) bool {
	ra, rb := regexp.MustCompile(a), regexp.MustCompile(b)
	// client data = concatenation of even chunks, server = odd; "then": B must match in server data that comes after the end of the A match
	for i := 0; i < len(chunks); i += 2 {
		if ra.MatchString(chunks[i]) {
			for j := i + 1; j < len(chunks); j += 2 {
				if rb.MatchString(chunks[j]) {
					return true
				}
			}
		}
	}
	return false
}

func TestProbeNegatedSequence(t *testing.T) {
	tmpDir := t.TempDir()
	pop := [][]string{
		{"aaa", "bbb"},
		{"aaa", "ccc"},
		{"ccc", "bbb"},
		{"ccc", "ddd"},
		{"bbb", "aaa"},
		{"aaa", "ccc", "ddd", "bbb"},
		{"xxx", "bbb", "aaa", "ccc"},
	}
	streamsMap := make(map[uint64]streamInfo)
	for i, c := range pop {
		streamsMap[uint64(i)] = makeStream("192.168.0.100:123", "192.168.0.1:80", t1.Add(time.Hour), c)
	}
	converters := map[string]ConverterAccess{}
	r, err := makeIndex(tmpDir, streamsMap, &converters)
	if err != nil {
		t.Fatal(err)
	}
	run := func(qs string) []uint64 {
		q, err := query.Parse(qs)
		if err != nil {
			t.Fatalf("parse %q: %v", qs, err)
		}
		res, _, _, err := SearchStreams(context.Background(), []*Reader{r}, nil, q.ReferenceTime, q.Conditions, q.Grouping, q.Sorting, 100, 0, nil, converters, false)
		if err != nil {
			t.Fatalf("search %q: %v", qs, err)
		}
		got := []uint64{}
		for _, s := range res {
			got = append(got, s.StreamID)
		}
		slices.Sort(got)
		return got
	}
	pos := run("cdata:aaa then sdata:bbb")
	neg := run("-(cdata:aaa then sdata:bbb)")
	neg2 := run("-cdata:aaa then sdata:bbb")
	t.Logf("-cdata:aaa = %v", run("-cdata:aaa"))
	t.Logf("cdata:aaa then -sdata:bbb = %v", run("cdata:aaa then -sdata:bbb"))
	t.Logf("cdata:aaa -sdata:bbb = %v", run("cdata:aaa -sdata:bbb"))
	var wantPos, wantNeg []uint64
	for i, c := range pop {
		if seqMatches(c, "aaa", "bbb") {
			wantPos = append(wantPos, uint64(i))
		} else {
			wantNeg = append(wantNeg, uint64(i))
		}
	}
	t.Logf("pos=%v want %v", pos, wantPos)
	t.Logf("neg=%v want %v (complement of pos: %v)", neg, wantNeg, pos)
	t.Logf("-cdata:aaa then sdata:bbb = %v", neg2)
	all := map[uint64]bool{}
	for _, x := range pos {
		all[x] = true
	}
	for _, x := range neg {
		if all[x] {
			t.Errorf("stream %d is in both the query and its negation", x)
		}
		all[x] = true
	}
	if len(all) != len(pop) {
		t.Errorf("query and its negation together cover %d of %d streams", len(all), len(pop))
	}
}
