#!/bin/bash
# usage: run.sh <project root>
# exit 0 = defect NOT observed, exit 1 = stale converter output observed, exit 2 = probe could not run
ROOT="${1:?usage: run.sh <project root>}"
HERE="$(cd "$(dirname "$0")" && pwd)"
export GOFLAGS=-mod=mod GOPROXY=off
unset GOWORK
DST="$ROOT/internal/index/manager/c16probe_test.go"
if [ -e "$DST" ]; then echo "refusing to overwrite $DST" >&2; exit 2; fi
cp "$HERE/c16probe_test.go" "$DST" || exit 2
trap 'rm -f "$DST"' EXIT
OUT="$(cd "$ROOT" && go test ./internal/index/manager/ -run '^TestC16' -count=1 -v 2>&1)"
RC=$?
echo "$OUT" | grep -v '^20[0-9][0-9]/'
if echo "$OUT" | grep -q 'STALE_CONVERTER_OUTPUT'; then
	echo "RESULT: stale converter output observed"
	exit 1
fi
if [ $RC -ne 0 ] || ! echo "$OUT" | grep -q -- '--- PASS: TestC16ControlExtendAfterConversion'; then
	echo "RESULT: probe failed for another reason (rc=$RC)"
	exit 2
fi
echo "RESULT: defect not observed"
exit 0
