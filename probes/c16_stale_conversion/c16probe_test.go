package manager

// Probe for: "Whenever converter output is shown or searched for a stream, it
// is the converter's output for that stream's current payload: when a later
// import extends a stream its old output is dropped and the converter runs
// again."
//
// The probe only uses the public Manager API to build the history. The
// schedule is forced from OUTSIDE the Go code: the converter executable is a
// copy of testdata/test_converter.py that, after it has received a complete
// stream, touches a "started" file and then waits for a "gate" file before it
// answers. While the converter process is parked on the gate, the real
// convertStreamJob goroutine is in flight holding the index snapshot it was
// started with.

import (
	"context"
	"encoding/base64"
	"encoding/json"
	"fmt"
	"os"
	"path"
	"strings"
	"testing"
	"time"

	"github.com/spq/pkappa2/internal/query"
)

const c16ConverterName = "gated"

const c16GatedConverter = `#!/usr/bin/python3
import base64
import json
import os
import sys
import time

STARTED = %q
GATE = %q

lines = []
while 1:
    line = sys.stdin.readline()
    if line == "":
        sys.exit(0)
    line = line.strip()
    if line != "":
        lines.append(json.loads(line))
        continue
    # the whole stream has been received: the payload this conversion is
    # based on is fixed now.
    with open(STARTED, "a") as f:
        f.write("%%d\n" %% lines[0]["StreamID"])
    while not os.path.exists(GATE):
        time.sleep(0.01)
    print(json.dumps({
        "Direction": "client-to-server",
        "Content": base64.b64encode(json.dumps({
            "info": lines[0],
            "data": lines[1:]
        }).encode()).decode(),
        "Time": "2222-02-22T22:22:22.222222"
    }))
    print()
    print("{}", flush=True)
    lines = []
`

type c16Env struct {
	t       *testing.T
	mgr     *Manager
	started string
	gate    string
}

func c16Setup(t *testing.T) *c16Env {
	dirs := makeTempdirs(t)
	e := &c16Env{
		t:       t,
		started: path.Join(dirs.base, "started"),
		gate:    path.Join(dirs.base, "gate"),
	}
	script := fmt.Sprintf(c16GatedConverter, e.started, e.gate)
	if err := os.WriteFile(path.Join(dirs.converter, c16ConverterName), []byte(script), 0775); err != nil {
		t.Fatalf("SETUP: writing converter failed: %v", err)
	}
	e.mgr = makeManager(t, dirs)
	if got := e.mgr.ListConverters(); len(got) != 1 || got[0].Name != c16ConverterName {
		t.Fatalf("SETUP: ListConverters() = %v", got)
	}
	return e
}

func (e *c16Env) openGate() {
	if err := os.WriteFile(e.gate, []byte("open"), 0644); err != nil {
		e.t.Fatalf("SETUP: opening gate failed: %v", err)
	}
}

func (e *c16Env) waitFor(what string, cond func() bool) {
	e.t.Helper()
	deadline := time.Now().Add(30 * time.Second)
	for !cond() {
		if time.Now().After(deadline) {
			e.t.Fatalf("SETUP: timeout waiting for %s", what)
		}
		time.Sleep(10 * time.Millisecond)
	}
}

type c16State struct {
	importJobs, pcaps                 int
	tagging, converting, merging      bool
	queuedConversions, uncertainCount int
}

func (s c16State) settled() bool {
	return s.importJobs == 0 && !s.tagging && !s.converting && !s.merging && s.queuedConversions == 0 && s.uncertainCount == 0
}

// state reads the manager's bookkeeping on the manager goroutine.
func (e *c16Env) state() c16State {
	c := make(chan c16State)
	e.mgr.jobs <- func() {
		s := c16State{
			importJobs: len(e.mgr.importJobs),
			pcaps:      len(e.mgr.builder.KnownPcaps()),
			tagging:    e.mgr.taggingJobRunning,
			converting: e.mgr.converterJobRunning,
			merging:    e.mgr.mergeJobRunning,
		}
		for _, bm := range e.mgr.streamsToConvert {
			s.queuedConversions += bm.OnesCount()
		}
		for _, tg := range e.mgr.tags {
			s.uncertainCount += tg.Uncertain.OnesCount()
		}
		c <- s
	}
	return <-c
}

func (e *c16Env) waitSettled(what string) {
	e.t.Helper()
	// require the settled state to be observed for a while, so that follow-up
	// jobs that are started from completion handlers are not missed.
	e.waitFor(what, func() bool {
		for i := 0; i < 10; i++ {
			if !e.state().settled() {
				return false
			}
			time.Sleep(10 * time.Millisecond)
		}
		st := e.mgr.Status()
		return !st.ConverterJobRunning && !st.TaggingJobRunning && !st.MergeJobRunning && st.ImportJobCount == 0
	})
}

func (e *c16Env) importPackets(pkts ...pcapOverIPPacket) {
	e.t.Helper()
	before := e.state().pcaps
	pcaps, err := writePcaps(e.mgr.PcapDir, pkts)
	if err != nil {
		e.t.Fatalf("SETUP: writePcaps failed: %v", err)
	}
	e.mgr.ImportPcaps(pcaps)
	e.waitFor("import to be processed", func() bool {
		s := e.state()
		return s.importJobs == 0 && s.pcaps == before+len(pcaps)
	})
}

func (e *c16Env) startedStreams() []string {
	b, err := os.ReadFile(e.started)
	if err != nil {
		return nil
	}
	return strings.Fields(string(b))
}

// payloads returns, through a fresh view, the chunks of the plain payload of
// the stream and the chunks the cached converter output was computed from.
func (e *c16Env) payloads(streamID uint64) (current, converted []string) {
	e.t.Helper()
	if !e.containsOnMgr(streamID) {
		e.t.Fatalf("SETUP: converter cache does not contain stream %d, StreamContext.Data would convert on demand", streamID)
	}
	view := e.mgr.GetView()
	defer view.Release()
	sc, err := view.Stream(streamID)
	if err != nil {
		e.t.Fatalf("SETUP: View.Stream(%d) failed: %v", streamID, err)
	}
	plain, err := sc.Data("")
	if err != nil {
		e.t.Fatalf("SETUP: StreamContext.Data(\"\") failed: %v", err)
	}
	for _, d := range plain {
		current = append(current, string(d.Content))
	}
	conv, err := sc.Data(c16ConverterName)
	if err != nil {
		e.t.Fatalf("SETUP: StreamContext.Data(%q) failed: %v", c16ConverterName, err)
	}
	if len(conv) != 1 {
		e.t.Fatalf("SETUP: StreamContext.Data(%q) = %v, want one chunk", c16ConverterName, conv)
	}
	out := struct {
		Info struct{ StreamID uint64 }
		Data []struct{ Content string }
	}{}
	if err := json.Unmarshal(conv[0].Content, &out); err != nil {
		e.t.Fatalf("SETUP: converter output is not json: %v: %q", err, conv[0].Content)
	}
	if out.Info.StreamID != streamID {
		e.t.Fatalf("SETUP: converter output is for stream %d, want %d", out.Info.StreamID, streamID)
	}
	for _, d := range out.Data {
		b, err := base64.StdEncoding.DecodeString(d.Content)
		if err != nil {
			e.t.Fatalf("SETUP: bad base64 in converter output: %v", err)
		}
		converted = append(converted, string(b))
	}
	return current, converted
}

func (e *c16Env) containsOnMgr(streamID uint64) bool {
	c := make(chan bool)
	e.mgr.jobs <- func() {
		c <- e.mgr.converters[c16ConverterName].Contains(streamID)
	}
	return <-c
}

// search runs a query on a fresh view and returns the matching stream ids.
func (e *c16Env) search(q string) []uint64 {
	e.t.Helper()
	pq, err := query.Parse(q)
	if err != nil {
		e.t.Fatalf("SETUP: query.Parse(%q) failed: %v", q, err)
	}
	view := e.mgr.GetView()
	defer view.Release()
	ids := []uint64{}
	if _, _, _, err := view.SearchStreams(context.Background(), pq, func(sc StreamContext) error {
		ids = append(ids, sc.Stream().ID())
		return nil
	}); err != nil {
		e.t.Fatalf("SETUP: SearchStreams(%q) failed: %v", q, err)
	}
	return ids
}

func (e *c16Env) check(streamID uint64) {
	e.t.Helper()
	current, converted := e.payloads(streamID)
	e.t.Logf("stream %d: current payload chunks %q, cached converter output was computed from %q, state %+v, status %+v", streamID, current, converted, e.state(), e.mgr.Status())
	if strings.Join(current, "|") != strings.Join(converted, "|") {
		e.t.Errorf("STALE_CONVERTER_OUTPUT: stream %d has payload %q but the settled system serves converter output computed from %q", streamID, current, converted)
	}
	// "bar" is only part of the extended payload; the converter output contains it base64 encoded.
	needle := base64.StdEncoding.EncodeToString([]byte("bar"))
	ids := e.search(fmt.Sprintf("data.%s:%s", c16ConverterName, needle))
	e.t.Logf("search data.%s:%s -> %v", c16ConverterName, needle, ids)
	found := false
	for _, id := range ids {
		found = found || id == streamID
	}
	if !found {
		e.t.Errorf("STALE_CONVERTER_OUTPUT: searching the converter output of stream %d for the extended payload finds %v", streamID, ids)
	}
}

var c16PktA, c16PktB, c16Other pcapOverIPPacket

func init() {
	base, _ := time.Parse(time.RFC3339, "2020-01-01T12:00:00Z")
	c16PktA = makeUDPPacket("1.2.3.4:1", "4.3.2.1:4321", base.Add(time.Second*0), "foo")
	c16PktB = makeUDPPacket("1.2.3.4:1", "4.3.2.1:4321", base.Add(time.Second*1), "bar")
	c16Other = makeUDPPacket("1.2.3.4:2", "4.3.2.1:4321", base.Add(time.Second*2), "qux")
}

func (e *c16Env) addTagWithConverter(q string) {
	e.t.Helper()
	if err := e.mgr.AddTag("tag/conv", "red", q); err != nil {
		e.t.Fatalf("SETUP: AddTag failed: %v", err)
	}
	e.waitSettled("tag to be evaluated")
	if got := e.mgr.ListTags(); len(got) != 1 || got[0].MatchingCount != 1 {
		e.t.Fatalf("SETUP: ListTags() = %+v, want one tag matching one stream", got)
	}
	if err := e.mgr.UpdateTag("tag/conv", UpdateTagOperationSetConverter([]string{c16ConverterName})); err != nil {
		e.t.Fatalf("SETUP: UpdateTag(SetConverter) failed: %v", err)
	}
}

// Control: conversion finishes, THEN the stream is extended. The old output
// has to be dropped and the converter has to run again.
func TestC16ControlExtendAfterConversion(t *testing.T) {
	e := c16Setup(t)
	defer e.mgr.Close()
	e.openGate()
	e.importPackets(c16PktA)
	e.addTagWithConverter("sport:4321")
	e.waitSettled("first conversion")
	if cur, conv := e.payloads(0); strings.Join(cur, "|") != "foo" || strings.Join(conv, "|") != "foo" {
		t.Fatalf("SETUP: before extension: payload %q, converted %q, want foo", cur, conv)
	}
	e.importPackets(c16PktB)
	e.waitSettled("re-conversion")
	if cur, _ := e.payloads(0); strings.Join(cur, "|") != "foo|bar" {
		t.Fatalf("SETUP: stream 0 was not extended: %q", cur)
	}
	e.check(0)
}

// Race: the converter job for S is in flight (the converter process already
// received the old payload) when the import that extends S completes.
func c16Race(t *testing.T, second ...pcapOverIPPacket) {
	e := c16Setup(t)
	defer e.mgr.Close()
	defer e.openGate()
	e.importPackets(c16PktA)
	e.addTagWithConverter("sport:4321")
	e.waitFor("converter process to receive stream 0", func() bool { return len(e.startedStreams()) == 1 })
	if s := e.state(); !s.converting {
		t.Fatalf("SETUP: converter job is not running: %+v", s)
	}
	if e.containsOnMgr(0) {
		t.Fatalf("SETUP: stream 0 is cached already")
	}
	// the import that extends stream 0 runs to completion, its completion
	// handler (invalidateTags, invalidateConverters, start*JobIfNeeded) is processed
	e.importPackets(second...)
	if s := e.state(); !s.converting {
		t.Fatalf("SETUP: converter job finished before the import completed: %+v", s)
	}
	t.Logf("after import, converter job still in flight: state %+v", e.state())
	// now the converter answers and the job stores its result
	e.openGate()
	e.waitSettled("converter job to finish")
	if cur, _ := e.payloads(0); strings.Join(cur, "|") != "foo|bar" {
		t.Fatalf("SETUP: stream 0 was not extended: %q", cur)
	}
	t.Logf("converter was run for streams (in order): %v", e.startedStreams())
	e.check(0)
	// stays that way
	time.Sleep(1500 * time.Millisecond)
	e.waitSettled("still settled")
	e.check(0)
}

func TestC16RaceExtendDuringConversion(t *testing.T) {
	c16Race(t, c16PktB)
}

// Same, but the second pcap also adds a new stream matching the tag, so the
// tag is evaluated again and all its matches (including S) are queued for
// conversion a second time.
func TestC16RaceExtendDuringConversionWithRequeue(t *testing.T) {
	c16Race(t, c16PktB, c16Other)
}
