package query

// C14: "for queries whose normal form is of moderate size the parser answers promptly".
// A protocol filter makes Parse of small queries (normal form of 10 to 20 alternatives)
// take seconds to minutes, the same query without the protocol filter takes milliseconds.

import (
	"testing"
	"time"
)

func TestZZHuntSlowProtocol(t *testing.T) {
	parse := func(qs string) (time.Duration, int, bool) {
		type res struct {
			q   *Query
			err error
		}
		ch := make(chan res, 1)
		start := time.Now()
		go func() {
			q, err := Parse(qs)
			ch <- res{q, err}
		}()
		select {
		case r := <-ch:
			if r.err != nil {
				t.Fatalf("Parse(%q): %v", qs, r.err)
			}
			return time.Since(start), len(r.q.Conditions), true
		case <-time.After(100 * time.Second):
			return time.Since(start), -1, false
		}
	}
	violated := false
	for _, c := range []struct{ control, slow string }{
		{
			`-(port:80,443 data:flag)`,
			`-(protocol:tcp,udp port:80,443 data:flag)`,
		}, {
			`-(port:80,443,8080 data:flag time:-1h:)`,
			`-(protocol:tcp,udp port:80,443,8080 data:flag time:-1h:)`,
		},
	} {
		dc, nc, _ := parse(c.control)
		ds, ns, done := parse(c.slow)
		t.Logf("%-60q normal form of %2d alternatives, Parse took %v", c.control, nc, dc)
		t.Logf("%-60q normal form of %2d alternatives, Parse took %v (finished: %v)", c.slow, ns, ds, done)
		if ds > 3*time.Second && ds > 100*dc {
			violated = true
			t.Logf("VIOLATION: the protocol filter makes Parse %.0f times slower: %v instead of %v", float64(ds)/float64(dc), ds, dc)
		}
	}
	if violated {
		t.Fatalf("C14 violated: Parse does not answer promptly for a query whose normal form is small")
	}
}
