#!/bin/bash
# usage: demo.sh <project root>
root="${1:?usage: demo.sh <project root>}"
here="$(cd "$(dirname "$0")" && pwd)"
export GOFLAGS=-mod=mod GOPROXY=off
unset GOWORK
f=zz_hunt_slow_protocol_test.go
dst="$root/internal/query/$f"
cp "$here/$f" "$dst" || exit 0
out="$(cd "$root" && timeout 175 go test -vet=off -count=1 -run '^TestZZHuntSlowProtocol$' -v ./internal/query/ 2>&1)"
rm -f "$dst"
echo "$out" | grep -E 'normal form|VIOLATION|C14 violated|^(--- |ok|FAIL|PASS)|panic|cannot|error' | cut -c1-400
if echo "$out" | grep -q 'C14 violated'; then
	exit 1
fi
exit 0
