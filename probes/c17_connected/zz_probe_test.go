package bitmask

import "testing"

func TestProbeExtract0(t *testing.T) {
	bm := ConnectedBitmask{}
	bm.Set(0)
	r := bm.Extract(0)
	t.Logf("Extract(0) on {0}: returned %v, entries=%v, IsZero=%v OnesCount=%d IsSet(5)=%v", r, bm.entries, bm.IsZero(), bm.OnesCount(), bm.IsSet(5))
	if !bm.IsZero() {
		t.Errorf("mask not empty after extracting its only bit")
	}
	bm2 := ConnectedBitmask{}
	bm2.Set(0)
	bm2.Set(3)
	bm2.Extract(0)
	t.Logf("{0,3}.Extract(0): entries=%v", bm2.entries)
	if bm2.IsSet(0) || bm2.IsSet(1) || !bm2.IsSet(2) || bm2.OnesCount() != 1 {
		t.Errorf("{0,3}.Extract(0) wrong: %v", bm2.entries)
	}
}

func TestProbeXorTouching(t *testing.T) {
	a := ConnectedBitmask{}
	a.Set(0)
	a.Set(1)
	b := ConnectedBitmask{}
	b.Set(2)
	b.Set(3)
	x := a.XorCopy(b)
	want := ConnectedBitmask{}
	for i := uint(0); i < 4; i++ {
		want.Set(i)
	}
	t.Logf("xor entries=%v want=%v equal=%v len=%d/%d ones=%d/%d", x.entries, want.entries, x.Equal(want), x.Len(), want.Len(), x.OnesCount(), want.OnesCount())
	if !x.Equal(want) {
		t.Errorf("XorCopy of touching runs not Equal to the same set built by Set")
	}
	// continue operating on the unmerged representation
	x.Unset(1)
	x.Set(1)
	x.Extract(2)
	want.Extract(2)
	if !x.Equal(want) {
		t.Errorf("after Extract(2): %v vs %v", x.entries, want.entries)
	}
}
