package bitmask

import (
	"math/rand"
	"testing"
)

func TestProbeExtractModel(t *testing.T) {
	rng := rand.New(rand.NewSource(1))
	bad := 0
	for it := 0; it < 20000; it++ {
		n := 12
		model := make([]bool, n)
		bm := ConnectedBitmask{}
		for i := 0; i < n; i++ {
			if rng.Intn(2) == 0 {
				model[i] = true
				bm.Set(uint(i))
			}
		}
		pos := rng.Intn(n)
		want := model[pos]
		got := bm.Extract(uint(pos))
		nm := append(append([]bool{}, model[:pos]...), model[pos+1:]...)
		ref := ConnectedBitmask{}
		for i, v := range nm {
			if v {
				ref.Set(uint(i))
			}
		}
		if got != want || !bm.Equal(ref) {
			bad++
			if bad < 5 {
				t.Errorf("model %v Extract(%d): got %v %v want %v %v", model, pos, got, bm.entries, want, ref.entries)
			}
		}
	}
	t.Logf("bad=%d", bad)
}

func TestProbeAlgebraModel(t *testing.T) {
	rng := rand.New(rand.NewSource(2))
	mk := func(m []bool) ConnectedBitmask {
		r := ConnectedBitmask{}
		for i, v := range m {
			if v {
				r.Set(uint(i))
			}
		}
		return r
	}
	bad := map[string]int{}
	for it := 0; it < 20000; it++ {
		n := 10
		a, b := make([]bool, n), make([]bool, n)
		for i := 0; i < n; i++ {
			a[i], b[i] = rng.Intn(2) == 0, rng.Intn(2) == 0
		}
		x, o, an, su := make([]bool, n), make([]bool, n), make([]bool, n), make([]bool, n)
		for i := 0; i < n; i++ {
			x[i], o[i], an[i], su[i] = a[i] != b[i], a[i] || b[i], a[i] && b[i], a[i] && !b[i]
		}
		A, B := mk(a), mk(b)
		if !A.XorCopy(B).Equal(mk(x)) {
			bad["xor"]++
		}
		if !A.OrCopy(B).Equal(mk(o)) {
			bad["or"]++
		}
		if !A.AndCopy(B).Equal(mk(an)) {
			bad["and"]++
		}
		if !A.SubCopy(B).Equal(mk(su)) {
			bad["sub"]++
		}
	}
	t.Logf("bad=%v", bad)
	if len(bad) != 0 {
		t.Fail()
	}
}
