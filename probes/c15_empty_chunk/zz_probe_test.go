package converters

// Probe for defects D20/D21 (C15): copy into internal/index/converters of a scratch worktree and run
//   go test -count=1 -vet=off -run TestProbeC15 ./internal/index/converters/
// D20: a chunk without content between two chunks of the other side (C:"a", S:"", C:"b") is written as size 0, which the
//      record format uses for "the other side continues"/"end of sizes": data() failed with
//      "content type bitmask out of range".
// D21: chunk times are stored as microsecond deltas to the previous chunk; each delta was truncated separately, so
//      +600ns and +1200ns both read back as +0µs although 1200ns is 1µs.

import (
	"fmt"
	"testing"
	"time"

	"github.com/spq/pkappa2/internal/index"
)

func probeRoundTrip(t *testing.T, in []index.Data, t0 time.Time) []index.Data {
	t.Helper()
	cf, err := NewCacheFile(fmt.Sprintf("%s/test.cache", t.TempDir()))
	if err != nil {
		t.Fatal(err)
	}
	defer cf.Close()
	if err := cf.setData(1, t0, in); err != nil {
		t.Fatalf("setData: %v", err)
	}
	out, _, _, err := cf.data(1, t0)
	if err != nil {
		t.Fatalf("data: %v", err)
	}
	return out
}

func TestProbeC15EmptyChunk(t *testing.T) {
	t0 := time.Date(2025, 1, 1, 0, 0, 0, 0, time.UTC)
	in := []index.Data{
		{Direction: index.DirectionClientToServer, Content: []byte("a"), Time: t0},
		{Direction: index.DirectionServerToClient, Content: []byte(""), Time: t0.Add(time.Millisecond)},
		{Direction: index.DirectionClientToServer, Content: []byte("b"), Time: t0.Add(2 * time.Millisecond)},
	}
	out := probeRoundTrip(t, in, t0)
	got := ""
	for _, d := range out {
		got += fmt.Sprintf("%d:%q@%v ", d.Direction, d.Content, d.Time.Sub(t0))
	}
	// the empty chunk carries no bytes; what matters is that both client chunks come back, in order, with their times
	want1 := `0:"a"@0s 1:""@1ms 0:"b"@2ms `
	want2 := `0:"a"@0s 0:"b"@2ms `
	if got != want1 && got != want2 {
		t.Errorf("round trip gave %s", got)
	}
}

func TestProbeC15SubMicrosecondTimes(t *testing.T) {
	t0 := time.Date(2025, 1, 1, 0, 0, 0, 0, time.UTC)
	in := []index.Data{
		{Direction: index.DirectionClientToServer, Content: []byte("a"), Time: t0.Add(600 * time.Nanosecond)},
		{Direction: index.DirectionServerToClient, Content: []byte("b"), Time: t0.Add(1200 * time.Nanosecond)},
		{Direction: index.DirectionClientToServer, Content: []byte("c"), Time: t0.Add(1800 * time.Nanosecond)},
		{Direction: index.DirectionServerToClient, Content: []byte("d"), Time: t0.Add(2400 * time.Nanosecond)},
	}
	out := probeRoundTrip(t, in, t0)
	for i, d := range out {
		if want := in[i].Time.Truncate(time.Microsecond); !d.Time.Equal(want) {
			t.Errorf("chunk %d: time %v, want %v (the stored time to the microsecond)", i, d.Time.Sub(t0), want.Sub(t0))
		}
	}
}
