#!/bin/bash
# usage: demo.sh <project root>
# exit 1 iff the violation shows, 0 otherwise (also when the test could not run)
ROOT="${1:?usage: demo.sh <project root>}"
HERE="$(cd "$(dirname "$0")" && pwd)"
export GOFLAGS=-mod=mod GOPROXY=off
unset GOWORK
T=zz_hunt_snapshot_closed_test.go
DST="$ROOT/internal/index/manager/$T"
cp "$HERE/$T" "$DST" || exit 0
OUT="$(cd "$ROOT" && timeout 170 go test -vet=off -count=1 -run 'TestZZHuntSnapshotClosedConnection' -v ./internal/index/manager/ 2>&1)"
rm -f "$DST"
echo "$OUT" | grep -E 'zz_hunt|VIOLATION|INCONCLUSIVE|visible:|snapshot file|^(---|===|ok|FAIL|PASS)' | grep -v '^=== RUN'
if echo "$OUT" | grep -q 'VIOLATION'; then
	echo "RESULT: violation shown"
	exit 1
fi
echo "RESULT: no violation"
exit 0
