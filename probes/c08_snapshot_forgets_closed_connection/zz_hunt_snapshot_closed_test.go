package manager

import (
	"context"
	"fmt"
	"net"
	"os"
	"path/filepath"
	"testing"
	"time"

	"github.com/gopacket/gopacket"
	"github.com/gopacket/gopacket/layers"
	"github.com/gopacket/gopacket/pcapgo"
)

type zzsPkt struct {
	ts   time.Time
	data []byte
}

func zzsTCP(t *testing.T, dir int, tcp *layers.TCP, payload string) []byte {
	t.Helper()
	ips := [2]net.IP{{10, 0, 0, 1}, {10, 0, 1, 1}}
	ports := [2]layers.TCPPort{40000, 80}
	eth := &layers.Ethernet{SrcMAC: net.HardwareAddr{2, 0, 0, 0, 0, byte(1 + dir)}, DstMAC: net.HardwareAddr{2, 0, 0, 0, 0, byte(2 - dir)}, EthernetType: layers.EthernetTypeIPv4}
	ip := &layers.IPv4{Version: 4, IHL: 5, TTL: 64, Protocol: layers.IPProtocolTCP, SrcIP: ips[dir], DstIP: ips[1-dir]}
	tcp.SrcPort, tcp.DstPort, tcp.Window = ports[dir], ports[1-dir], 65535
	if err := tcp.SetNetworkLayerForChecksum(ip); err != nil {
		t.Fatal(err)
	}
	buf := gopacket.NewSerializeBuffer()
	if err := gopacket.SerializeLayers(buf, gopacket.SerializeOptions{FixLengths: true, ComputeChecksums: true}, eth, ip, tcp, gopacket.Payload(payload)); err != nil {
		t.Fatal(err)
	}
	return append([]byte(nil), buf.Bytes()...)
}

func zzsFiller(t *testing.T, i int) []byte {
	eth := &layers.Ethernet{SrcMAC: net.HardwareAddr{2, 0, 0, 0, 1, 1}, DstMAC: net.HardwareAddr{2, 0, 0, 0, 1, 2}, EthernetType: layers.EthernetTypeIPv4}
	ip := &layers.IPv4{Version: 4, IHL: 5, TTL: 64, Protocol: layers.IPProtocolUDP, SrcIP: net.IP{10, 9, 0, 1}, DstIP: net.IP{10, 9, 0, 2}}
	udp := &layers.UDP{SrcPort: layers.UDPPort(5000 + i%100), DstPort: 9999}
	if err := udp.SetNetworkLayerForChecksum(ip); err != nil {
		t.Fatal(err)
	}
	buf := gopacket.NewSerializeBuffer()
	if err := gopacket.SerializeLayers(buf, gopacket.SerializeOptions{FixLengths: true, ComputeChecksums: true}, eth, ip, udp, gopacket.Payload("f")); err != nil {
		t.Fatal(err)
	}
	return append([]byte(nil), buf.Bytes()...)
}

func zzsWrite(t *testing.T, fn string, pkts []zzsPkt) {
	f, err := os.Create(fn)
	if err != nil {
		t.Fatal(err)
	}
	w := pcapgo.NewWriter(f)
	if err := w.WriteFileHeader(65535, layers.LinkTypeEthernet); err != nil {
		t.Fatal(err)
	}
	for _, p := range pkts {
		if err := w.WritePacket(gopacket.CaptureInfo{Timestamp: p.ts, CaptureLength: len(p.data), Length: len(p.data)}, p.data); err != nil {
			t.Fatal(err)
		}
	}
	if err := f.Close(); err != nil {
		t.Fatal(err)
	}
}

// TestZZHuntSnapshotClosedConnection: a capture rotation cuts a TCP connection
// between the second FIN and the final ACK. The first capture is large enough
// (> 100000 packets) that a reassembly snapshot is taken; the snapshot point
// lies behind the second FIN. The visible streams after importing both captures
// must not depend on whether the snapshot was available.
func TestZZHuntSnapshotClosedConnection(t *testing.T) {
	for _, tc := range []struct {
		name    string
		filler  int // filler packets in the first capture behind the connection
		atOnce  bool
	}{
		{"control: first capture too small for a snapshot", 50000, false},
		{"control: snapshot sized captures imported in one batch", 100010, true},
		{"snapshot taken after the second FIN, captures imported one by one", 100010, false},
	} {
		t.Run(tc.name, func(t *testing.T) {
			base := t.TempDir()
			mk := func(n string) string {
				p := filepath.Join(base, n) + "/"
				if err := os.Mkdir(p, 0755); err != nil {
					t.Fatal(err)
				}
				return p
			}
			pcapDir, snapDir := mk("pcap"), mk("snapshot")
			mgr, err := New(pcapDir, mk("index"), snapDir, mk("state"), mk("converter"), "")
			if err != nil {
				t.Fatal(err)
			}
			defer mgr.Close()

			ts := time.Date(2024, 1, 1, 12, 0, 0, 0, time.UTC)
			next := func() time.Time { ts = ts.Add(200 * time.Microsecond); return ts }
			c, s := uint32(1000), uint32(5000)
			req, resp := "GET / HTTP/1.0\r\n\r\n", "HTTP/1.0 200 OK\r\n\r\nhello"
			first := []zzsPkt{}
			// the capture point sees 99990 other packets first (so the snapshot after 100000 packets lies behind this connection)
			for i := 0; i < 99980; i++ {
				first = append(first, zzsPkt{next(), zzsFiller(t, i)})
			}
			for _, p := range []struct {
				dir     int
				tcp     *layers.TCP
				payload string
			}{
				{0, &layers.TCP{Seq: c, SYN: true}, ""},
				{1, &layers.TCP{Seq: s, Ack: c + 1, SYN: true, ACK: true}, ""},
				{0, &layers.TCP{Seq: c + 1, Ack: s + 1, ACK: true}, ""},
				{0, &layers.TCP{Seq: c + 1, Ack: s + 1, ACK: true, PSH: true}, req},
				{1, &layers.TCP{Seq: s + 1, Ack: c + 1 + uint32(len(req)), ACK: true, PSH: true}, resp},
				{1, &layers.TCP{Seq: s + 1 + uint32(len(resp)), Ack: c + 1 + uint32(len(req)), ACK: true, FIN: true}, ""},
				{0, &layers.TCP{Seq: c + 1 + uint32(len(req)), Ack: s + 2 + uint32(len(resp)), ACK: true, FIN: true}, ""},
			} {
				first = append(first, zzsPkt{next(), zzsTCP(t, p.dir, p.tcp, p.payload)})
			}
			for i := 0; len(first) < tc.filler; i++ {
				first = append(first, zzsPkt{next(), zzsFiller(t, i)})
			}
			// the rotation: the second capture begins with the final ACK of the connection
			second := []zzsPkt{{next(), zzsTCP(t, 1, &layers.TCP{Seq: s + 2 + uint32(len(resp)), Ack: c + 2 + uint32(len(req)), ACK: true}, "")}}
			for i := 0; i < 20; i++ {
				second = append(second, zzsPkt{next(), zzsFiller(t, i)})
			}
			zzsWrite(t, filepath.Join(pcapDir, "rot_0001.pcap"), first)
			zzsWrite(t, filepath.Join(pcapDir, "rot_0002.pcap"), second)
			wait := func(pcaps int) {
				for deadline := time.Now().Add(60 * time.Second); ; time.Sleep(10 * time.Millisecond) {
					if st := mgr.Status(); st.ImportJobCount == 0 && st.PcapCount >= pcaps {
						return
					}
					if time.Now().After(deadline) {
						t.Fatalf("import did not finish: %+v", mgr.Status())
					}
				}
			}
			if tc.atOnce {
				mgr.ImportPcaps([]string{"rot_0001.pcap", "rot_0002.pcap"})
			} else {
				mgr.ImportPcaps([]string{"rot_0001.pcap"})
				wait(1)
				mgr.ImportPcaps([]string{"rot_0002.pcap"})
			}
			wait(2)
			snaps, _ := filepath.Glob(filepath.Join(snapDir, "*.snap"))
			for _, sn := range snaps {
				if fi, err := os.Stat(sn); err == nil {
					t.Logf("snapshot file %s: %d bytes", filepath.Base(sn), fi.Size())
				}
			}
			v := mgr.GetView()
			defer v.Release()
			found := []string{}
			if err := v.AllStreams(context.Background(), func(sc StreamContext) error {
				st := sc.Stream()
				if st.Protocol() != "TCP" {
					return nil
				}
				data, err := sc.Data("")
				if err != nil {
					return err
				}
				n := 0
				for _, d := range data {
					n += len(d.Content)
				}
				pk, _ := st.Packets()
				found = append(found, fmt.Sprintf("stream %d: %s:%d -> %s:%d, %d packets, %d payload bytes", st.ID(), st.ClientHostIP(), st.ClientPort, st.ServerHostIP(), st.ServerPort, len(pk), n))
				return nil
			}); err != nil {
				t.Fatal(err)
			}
			for _, f := range found {
				t.Logf("visible: %s", f)
			}
			if len(found) != 1 {
				t.Errorf("VIOLATION: the one TCP connection 10.0.0.1:40000 <-> 10.0.1.1:80 is visible as %d streams", len(found))
			}
		})
	}
}
