package manager

// Probe for defect D5 (C09): copy into internal/index/manager of a scratch worktree and run
//   go test -count=1 -vet=off -run TestProbeWorkerSilent ./internal/index/manager/
// On an empty manager a mark tag `id:0` is accepted although stream 0 does not exist; attaching a converter queues
// stream 0; the converter job's worker finds the stream in no index and (before the repair) ends without answering,
// so the job never completes and ConverterJobRunning stays true.

import (
	"testing"
	"time"
)

func TestProbeWorkerSilent(t *testing.T) {
	dirs := makeTempdirs(t)
	addConverter(dirs, "foo")
	mgr := makeManager(t, dirs)
	defer mgr.Close()
	if err := mgr.AddTag("mark/foo", "red", "id:0"); err != nil {
		t.Fatalf("AddTag: %v", err)
	}
	if err := mgr.UpdateTag("mark/foo", UpdateTagOperationSetConverter([]string{"foo"})); err != nil {
		t.Fatalf("UpdateTag: %v", err)
	}
	deadline := time.Now().Add(10 * time.Second)
	for time.Now().Before(deadline) {
		st := mgr.Status()
		if !st.ConverterJobRunning && !st.TaggingJobRunning {
			return
		}
		time.Sleep(50 * time.Millisecond)
	}
	t.Fatalf("the service does not settle: status %+v", mgr.Status())
}
