package converters

// Probe for defect D19 (C15): copy into internal/index/converters of a scratch worktree and run
//   go test -count=1 -vet=off -run TestProbeSupersededRecord ./internal/index/converters/
// Store X twice (two conversions of one stream finishing one after the other), invalidate X, reopen: before the repair
// only the latest record carried the tombstone and the FIRST version of X was served again.

import (
	"fmt"
	"testing"
	"time"

	"github.com/spq/pkappa2/internal/index"
	"github.com/spq/pkappa2/internal/tools/bitmask"
)

func TestProbeSupersededRecord(t *testing.T) {
	path := fmt.Sprintf("%s/test.cache", t.TempDir())
	cf, err := NewCacheFile(path)
	if err != nil {
		t.Fatal(err)
	}
	t1 := time.Date(2025, 1, 1, 0, 0, 0, 0, time.UTC)
	mk := func(s string) []index.Data {
		return []index.Data{{Direction: index.DirectionClientToServer, Content: []byte(s), Time: t1}, {Direction: index.DirectionServerToClient, Content: []byte(s + s), Time: t1}}
	}
	for _, v := range []string{"one", "other", "v1", "v2"} {
		id := uint64(7)
		if v == "one" {
			id = 1
		} else if v == "other" {
			id = 9
		}
		if err := cf.setData(id, t1, mk(v)); err != nil {
			t.Fatal(err)
		}
	}
	bm := bitmask.LongBitmask{}
	bm.Set(7)
	cf.InvalidateChangedStreams(&bm)
	cf.Close()
	cf, err = NewCacheFile(path)
	if err != nil {
		t.Fatal(err)
	}
	defer cf.Close()
	if cf.Contains(7) {
		d, _, _, _ := cf.data(7, t1)
		t.Errorf("stream 7 was invalidated, but after a reopen the cache serves %q for it", d[0].Content)
	}
	for id, want := range map[uint64]string{1: "one", 9: "other"} {
		d, _, _, err := cf.data(id, t1)
		if err != nil || len(d) != 2 || string(d[0].Content) != want {
			t.Errorf("stream %d after reopen: %v %v", id, d, err)
		}
	}
}
