package index

// Demonstration: ConstantSuffix walks every path through the compiled expression
// separately (no memoisation, unlike AcceptedLength), so a repeated group with an
// alternative or an optional part costs 2^n; a payload filter with such an
// expression never returns and cannot be cancelled.

import (
	"context"
	"fmt"
	"testing"
	"time"

	"github.com/spq/pkappa2/internal/query"
	regexanalysis "github.com/spq/pkappa2/internal/tools/regexAnalysis"
)

func TestZZHuntSuffixHang(t *testing.T) {
	// 1. the growth, on the expressions of the project's own test cases for AcceptedLength ("bug#252")
	for _, n := range []int{12, 14, 16, 18, 20} {
		for _, f := range []string{"(?:a|bb){%d}", "RABA_([A-Za-z0-9+/]|%%[0-9a-fA-F]{2}){%d}", "(?:[0-9a-f]{2} ?){%d}"} {
			expr := fmt.Sprintf(f, n)
			st := time.Now()
			al, err := regexanalysis.AcceptedLength(expr)
			d1 := time.Since(st)
			st = time.Now()
			s, err2 := regexanalysis.ConstantSuffix(expr)
			d2 := time.Since(st)
			t.Logf("%-45s AcceptedLength %v (%v) in %-12v ConstantSuffix %q (%v) in %v", expr, al, err, d1, s, err2, d2)
		}
	}

	// 2. a search with such a filter
	converters := map[string]ConverterAccess{}
	r, err := makeIndex(t.TempDir(), map[uint64]streamInfo{
		0: makeStream("192.168.0.100:123", "192.168.0.1:80", t1.Add(time.Hour), []string{"RABA_0123456789abcdefghijklmnopqrstuv", "ok"}),
		1: makeStream("192.168.0.100:124", "192.168.0.1:80", t1.Add(2*time.Hour), []string{"hello", "world"}),
	}, &converters)
	if err != nil {
		t.Fatalf("makeIndex: %v", err)
	}
	defer r.Close()
	for _, qs := range []string{
		`cdata:"RABA_([A-Za-z0-9+/]|%[0-9a-fA-F]{2}){32}"`,
		`cdata:"(?:a|bb){64}"`,
	} {
		q, err := query.Parse(qs)
		if err != nil {
			t.Fatalf("parse %s: %v", qs, err)
		}
		ctx, cancel := context.WithCancel(context.Background())
		done := make(chan string, 1)
		st := time.Now()
		go func() {
			results, _, _, err := SearchStreams(ctx, []*Reader{r}, nil, q.ReferenceTime, q.Conditions, q.Grouping, q.Sorting, 100, 0, nil, converters, false)
			ids := []uint64{}
			for _, s := range results {
				ids = append(ids, s.StreamID)
			}
			done <- fmt.Sprintf("streams %v, err %v", ids, err)
		}()
		select {
		case res := <-done:
			t.Logf("query %s: %s after %v", qs, res, time.Since(st))
		case <-time.After(20 * time.Second):
			cancel()
			select {
			case res := <-done:
				t.Logf("query %s: cancelled after 20s: %s", qs, res)
			case <-time.After(5 * time.Second):
			}
			t.Errorf("VIOLATION: query %s: no result after 20s, and none 5s after the search was cancelled (2 streams in the index)", qs)
		}
	}
}
