#!/bin/bash
# usage: demo.sh <project root>
root="${1:?usage: demo.sh <project root>}"
here="$(cd "$(dirname "$0")" && pwd)"
export GOFLAGS=-mod=mod GOPROXY=off
unset GOWORK
cd "$root" || exit 0
cp "$here/zz_hunt_suffixhang_test.go" internal/index/zz_hunt_suffixhang_test.go || exit 0
out=$(timeout 170 go test -vet=off -count=1 -run 'TestZZHuntSuffixHang$' -v ./internal/index/ 2>&1)
rm -f internal/index/zz_hunt_suffixhang_test.go
echo "$out" | grep -v '^=== ' | cut -c1-400
if echo "$out" | grep -q 'VIOLATION'; then
	exit 1
fi
exit 0
